"""E3/E5: construction terms (what is hashed / keyed / framed), sibling agreement."""
from ..core.sym import evaluate, strip_sites, inline, calls_in, params_of
from ..core.terms import T, show, subterms, subst
from ..core import bytesnf as B
from .common import SCHEME_TRAITS, TAG_CONSTS, where, spec

PRODUCERS = {"BlsSignatureCore::core_sign": (1, 2), "BlsSignatureCore::core_partial_sign": (1, 2)}
CONSUMERS = {
    "BlsSignatureCore::core_verify": (2, 3),
    "BlsSignatureCore::core_signature_share_verify": (2, 3),
    "BlsSignatureCore::core_aggregate_verify": (None, 2),
}


def tag_of(t):
    """(const-name) of a tag operand term, or None."""
    t = B.peel(t)
    if t.op == "assoc":
        return t.a[0]
    if t.op == "named":
        return t.a[0]
    return None


# crate functions the rules name as atoms of a construction (never looked through)
ATOMS = {
    "BlsTimeCrypt::compute_v",
    "BlsTimeCrypt::compute_w",
    "BlsTimeCrypt::seal",
    "BlsTimeCrypt::unseal",
    "BlsSignCrypt::seal",
    "BlsSignCrypt::unseal",
    "BlsSignCrypt::valid",
    "BlsSignCrypt::verify_share",
    "BlsSignatureProof::generate_timestamp_based_y",
    "BlsSignatureProof::compute_y",
    "BlsSignatureCore::public_key",
    "helpers::byte_xor",
    "helpers::get_crypto_rng",
    "helpers::pairing_g1_g2",
    "helpers::pairing_g2_g1",
}


def local_inliner(P):
    def only(f):
        # inline crate-local helpers except the core_* sinks, hash functions and the named atoms
        return f.key not in PRODUCERS and f.key not in CONSUMERS and f.key not in ATOMS and not f.key.endswith("::hash_to_point") and not f.key.endswith("::hash_to_scalar")

    return only


def msg_class(P, fn, ev, t):
    """Classify a message term of a scheme-trait method:
       ('param', name)            caller's message forwarded unmodified
       ('pk', who)                compressed bytes of a public key (who = 'own'|'param')
       ('aug', who, name)         to_bytes(pk) ‖ message-param
       ('other', shown)"""
    t_in = inline(P, t, 3, only=local_inliner(P))
    segs = B.nf(ev, t_in)
    return classify_segs(segs), segs


def _pk_atom(t):
    """to_bytes(pk) where pk is public_key(sk) ('own') or a parameter ('param')"""
    t = B.peel(t)
    if t.op == "call" and B.cname(t) == "GroupEncoding::to_bytes":
        inner = B.peel(t.a[1][0])
        if inner.op == "param":
            return ("param", inner.a[1])
        if inner.op == "call" and B.cname(inner) in ("BlsSignatureCore::public_key",):
            return ("own", None)
        if inner.op == "call" and B.cname(inner) == "Mul::mul":
            a = [B.peel(x) for x in inner.a[1]]
            if a[0].op == "call" and B.cname(a[0]) == "Group::generator" and a[1].op == "param":
                return ("own", None)
        if inner.op in ("field",) and B.peel(inner.a[0]).op in ("param", "field"):
            return ("param", show(inner, 3))
    return None


def classify_segs(segs):
    if B.clobbers(segs):
        return ("other", B.show_nf(segs))
    if any(sg[0] == "phi" for sg in segs):
        # `a ‖ (x or y)`: each alternative is classified; they must agree (a fully known alternative that differs is
        # a different message, not an unknown one)
        alts = B.expand_phi(segs)
        if alts is not None:
            cs = [classify_segs(a) for a in alts]
            if all(c == cs[0] for c in cs):
                return cs[0]
            if all(c[0] == "weak" for c in cs):
                return ("weak", B.show_nf(segs))
            return ("other", B.show_nf(segs))
    if not B.is_strong(segs):
        return ("weak", B.show_nf(segs))
    if len(segs) == 1 and segs[0][0] == "v":
        t = segs[0][1]
        if t.op == "param":
            return ("param", t.a[1])
        pk = _pk_atom(t)
        if pk:
            return ("pk", pk[0])
        return ("other", show(t, 5))
    if len(segs) == 2 and segs[0][0] == "v" and segs[1][0] == "v":
        pk = _pk_atom(segs[0][1])
        m = segs[1][1]
        if pk and m.op == "param":
            return ("aug", pk[0], m.a[1])
        if pk and m.op == "field":
            return ("aug", pk[0], show(m, 3))
    return ("other", B.show_nf(segs))


def core_call_table(ctx, P):
    """For each scheme trait default method: the (sink, tag, message class) of every core_* call."""
    rows = []
    for fn in P.fns.values():
        owner = fn.trait_default_of
        parent = fn
        if fn.kind == "Closure":
            continue
        if owner not in SCHEME_TRAITS:
            continue
        ev = evaluate(fn)
        ctx.saw(fn)
        for bb, site in sorted(ev.sites.items()):
            name = site.callee[0]
            if name in PRODUCERS or name in CONSUMERS:
                mi, ti = (PRODUCERS.get(name) or CONSUMERS.get(name))
                tag = tag_of(site.args[ti]) if ti < len(site.args) else None
                if mi is not None:
                    mc, segs = msg_class(P, fn, ev, site.args[mi])
                else:
                    mc, segs = agg_msg_class(P, fn, ev, site.args[0])
                rows.append({"fn": fn, "bb": bb, "sink": name, "tag": tag, "msg": mc, "nf": B.show_nf(segs) if segs is not None else None, "side": "sign" if name in PRODUCERS else "verify"})
    # one level of indirection: a scheme method that goes through a sibling method of its own trait
    # (e.g. pop_prove -> sign -> core_sign) inherits that method's sink and tag when the sibling
    # forwards its message parameter unmodified
    direct = {}
    for r in rows:
        if r["msg"] == ("param", "msg"):
            direct[(r["fn"].trait_default_of, r["fn"].name)] = r
    for fn in P.fns.values():
        owner = fn.trait_default_of
        if fn.kind == "Closure" or owner not in SCHEME_TRAITS:
            continue
        ev = evaluate(fn)
        for bb, site in sorted(ev.sites.items()):
            c = site.raw.get("callee") or {}
            if c.get("trait") == owner and (owner, c.get("name")) in direct and c.get("name") != fn.name:
                base = direct[(owner, c["name"])]
                mi = {"sign": 1, "partial_sign": 1, "verify": 2, "partial_verify": 2, "multi_sig_verify": 2}.get(c["name"])
                if mi is None or mi >= len(site.args):
                    continue
                mc, segs = msg_class(P, fn, ev, site.args[mi])
                rows.append({"fn": fn, "bb": bb, "sink": base["sink"], "tag": base["tag"], "msg": mc, "nf": B.show_nf(segs) if segs is not None else None, "side": base["side"], "via": c["name"]})
    return rows


def agg_msg_class(P, fn, ev, it):
    """Message class of the pair iterator handed to core_aggregate_verify."""
    it = B.peel(it) if it.op in ("ref", "deref") else it
    # pass-through of the caller's iterator
    if it.op == "param":
        return ("param", it.a[1]), None
    # iterator.map(closure): classify the closure's message component
    if it.op == "call" and B.cname(it) == "Iterator::map" and len(it.a[1]) == 2:
        src, clo = it.a[1]
        clo = B.peel(clo)
        if clo.op == "agg" and clo.a[0][0] == "closure":
            cf = P.fns.get(clo.a[0][1])
            if cf is not None:
                cev = evaluate(cf)
                ret = cev.ret
                if ret.op == "agg" and ret.a[0][0] == "tuple" and len(ret.a[1]) == 2:
                    pk_t, msg_t = ret.a[1]
                    msg_in = inline(P, msg_t, 3, only=local_inliner(P))
                    segs = B.nf(cev, msg_in)
                    src_p = B.peel(src)
                    src_kind = "param" if src_p.op == "param" else show(strip_sites(src_p), 4)
                    return ("map", src_kind, classify_closure_msg(segs), show(strip_sites(B.peel(pk_t)), 3)), segs
    return ("other", show(strip_sites(it), 5)), None


def classify_closure_msg(segs):
    """Inside a closure the element is a destructured parameter: fields of param 2."""
    if any(sg[0] == "phi" for sg in segs):
        alts = B.expand_phi(segs)
        if alts is not None:
            cs = [classify_closure_msg(a) for a in alts]
            if all(c == cs[0] for c in cs):
                return cs[0]
            if all(c[0] == "weak" for c in cs):
                return ("weak", B.show_nf(segs))
            return ("other", B.show_nf(segs))
    if not B.is_strong(segs):
        return ("weak", B.show_nf(segs))

    def elem(t):
        t = B.peel(t)
        return show(t, 4)

    if len(segs) == 1 and segs[0][0] == "v":
        return ("elem", elem(segs[0][1]))
    if len(segs) == 2 and segs[0][0] == "v" and segs[1][0] == "v":
        a = B.peel(segs[0][1])
        if a.op == "call" and B.cname(a) == "GroupEncoding::to_bytes":
            return ("aug-elem", elem(a.a[1][0]), elem(segs[1][1]))
    return ("other", B.show_nf(segs))


EXPECTED_CORE = {
    # trait -> {(method, sink): (tag, message class)}
    "BlsSignatureBasic": {
        ("partial_sign", "core_partial_sign"): ("BlsSignatureBasic::DST", ("param", "msg")),
        ("partial_verify", "core_signature_share_verify"): ("BlsSignatureBasic::DST", ("param", "msg")),
        ("sign", "core_sign"): ("BlsSignatureBasic::DST", ("param", "msg")),
        ("verify", "core_verify"): ("BlsSignatureBasic::DST", ("param", "msg")),
        ("aggregate_verify", "core_aggregate_verify"): ("BlsSignatureBasic::DST", "basic-collected"),
    },
    "BlsSignatureMessageAugmentation": {
        ("sign", "core_sign"): ("BlsSignatureMessageAugmentation::DST", ("aug", "own", "msg")),
        ("verify", "core_verify"): ("BlsSignatureMessageAugmentation::DST", ("aug", "param", "msg")),
        ("aggregate_verify", "core_aggregate_verify"): ("BlsSignatureMessageAugmentation::DST", "aug-mapped"),
    },
    "BlsSignaturePop": {
        ("partial_sign", "core_partial_sign"): ("BlsSignaturePop::SIG_DST", ("param", "msg")),
        ("partial_verify", "core_signature_share_verify"): ("BlsSignaturePop::SIG_DST", ("param", "msg")),
        ("sign", "core_sign"): ("BlsSignaturePop::SIG_DST", ("param", "msg")),
        ("verify", "core_verify"): ("BlsSignaturePop::SIG_DST", ("param", "msg")),
        ("multi_sig_verify", "core_verify"): ("BlsSignaturePop::SIG_DST", ("param", "msg")),
        ("aggregate_verify", "core_aggregate_verify"): ("BlsSignaturePop::SIG_DST", ("param", "pks")),
        ("pop_prove", "core_sign"): ("BlsSignaturePop::POP_DST", ("pk", "own")),
        ("pop_verify", "core_verify"): ("BlsSignaturePop::POP_DST", ("pk", "param")),
    },
}


def check_purpose_separation(ctx, P):
    """E5: (tag, message class) at every core_* call is an allowed pair:
       sig-purpose tags with the caller's message (or pk‖message for augmentation),
       the POP tag only with the key's own bytes."""
    rows = core_call_table(ctx, P)
    ctx.floor("E5.purpose", "core_* call sites in scheme traits", len(rows), 8)
    for r in rows:
        fn = r["fn"]
        tag = r["tag"]
        mc = r["msg"]
        purpose = TAG_CONSTS.get(tag, (None, None))[1]
        weak = mc[0] == "weak"
        if tag is None:
            ok = False
            why = "tag operand is not a scheme tag constant"
        elif purpose == "pop":
            ok = mc[0] == "pk" or weak
            why = "POP tag must be paired with the key's own compressed bytes as message"
        else:
            ok = mc[0] != "pk"
            why = "a signature-purpose tag must not be paired with exactly the key's own bytes as message (that pairing is the proof-of-possession purpose)"
        ctx.ob(
            "E5.purpose",
            "%s->%s" % (fn.key, r["sink"].split("::")[-1]),
            ok,
            "%s: tag=%s message=%s" % (why, tag, mc),
            where=where(fn, r["bb"]),
            sample={"fn": fn.key, "sink": r["sink"], "tag": tag, "message": str(mc), "nf": r["nf"]},
            weak=weak,
        )
    return rows


def _canon_nf(r):
    """Message construction as a string in which the signer's own key and the verifier's key parameter unify."""
    s = r["nf"] if r["nf"] is not None else str(r["msg"])
    for a in ("GroupEncoding::to_bytes(&Mul::mul(Group::generator(), Psk))", "GroupEncoding::to_bytes(&BlsSignatureCore::public_key(Psk))", "GroupEncoding::to_bytes(&Ppk)", "GroupEncoding::to_bytes(&P2.0)"):
        s = s.replace(a, "PKBYTES")
    return s.replace("P2.1", "Pmsg")


def check_core_siblings(ctx, P, traits=None, rule="E3.sibling", methods_sign=("sign", "partial_sign", "pop_prove"), methods_verify=("verify", "partial_verify", "pop_verify", "multi_sig_verify")):
    """E3 only: for each scheme trait the signing side and the verifying side hand the same
    (tag, message construction) to the core primitive.  Nothing is compared with a pinned table, so
    a symmetric re-framing is (correctly) not reported here."""
    rows = core_call_table(ctx, P)
    for tr in SCHEME_TRAITS:
        if traits and tr not in traits:
            continue
        sign = {(r["tag"], _canon_nf(r)) for r in rows if r["fn"].trait_default_of == tr and r["side"] == "sign" and r["fn"].name in methods_sign}
        ver = {(r["tag"], _canon_nf(r)) for r in rows if r["fn"].trait_default_of == tr and r["side"] == "verify" and r["fn"].name in methods_verify}
        if not sign and not ver:
            continue
        ctx.ob(rule, tr, sign == ver and bool(sign), "signing side hashes %s ; verifying side hashes %s" % (sorted(sign), sorted(ver)), sample={"trait": tr, "sign": sorted(map(str, sign)), "verify": sorted(map(str, ver))})
    return rows


def check_core_forwarding(ctx, P, rule="E5.forward", methods=None):
    """Keys, signatures and pair lists reach the guarded core primitives unmodified (the message framing
    is not examined here): verify rows pass (pk, sig) parameters through; aggregate rows pass the caller's
    iterator itself or a 1:1 map over it whose key component is the entry's own key."""
    rows = core_call_table(ctx, P)
    n = 0
    for r in rows:
        fn = r["fn"]
        if methods and fn.name not in methods:
            continue
        if r["side"] != "verify":
            continue
        ev = evaluate(fn)
        site = ev.sites[r["bb"]]
        n += 1
        if r["sink"].endswith("core_aggregate_verify"):
            mc = r["msg"]
            ok = (mc[0] == "param") or (mc[0] == "map" and mc[1] == "param" and _pk_elem_ok(mc)) or (mc[0] == "map" and fn.trait_default_of == "BlsSignatureBasic" and _pk_elem_ok(mc))
            if not ok and fn.trait_default_of == "BlsSignatureBasic":
                # the collected (key, message copy) pairs handed over as they are: the pushed pair keeps the entry's key
                ok = _collected_image_of_pks(P, fn, ev, site.args[0]) and _pushed_key_is_entry_key(fn, ev, site.args[0])
            sig = B.peel(strip_sites(site.args[1]))
            ok = ok and sig.op == "param"
            ctx.ob(rule, "%s->core_aggregate_verify" % fn.key, ok, "the pair list reaches core_aggregate_verify as the caller's iterator or a 1:1 map keeping each entry's key (%s); signature forwarded unmodified" % (mc,), where=where(fn, r["bb"]))
        else:
            a = [B.peel(strip_sites(x)) for x in site.args[:2]]
            if fn.name == "multi_sig_verify":
                ok = a[0].op == "call" and B.cname(a[0]) == "BlsSignatureCore::aggregate_public_keys" and B.peel(a[0].a[1][0]).op == "param" and a[1].op == "param"
            elif r["sink"].endswith("core_signature_share_verify"):
                ok = all(x.op == "param" for x in a)
            else:
                ok = all(x.op == "param" for x in a)
            ctx.ob(rule, "%s->%s" % (fn.key, r["sink"].split("::")[-1]), ok, "key and signature arguments are the caller's values unmodified: %s" % [show(x, 3) for x in a], where=where(fn, r["bb"]))
    ctx.floor(rule, "verification-side core calls", n, 8 if not methods else 1)
    return rows


def _pushed_key_is_entry_key(fn, ev, it):
    """In the push loop that fills the list, the first component of the pushed pair is the key of the entry being visited
    (the first component of the element the loop's iterator yielded)."""
    for bb, s_ in sorted(ev.sites.items()):
        if s_.callee[0] != "Vec::<T, A>::push" or len(s_.args) != 2:
            continue
        el = B.peel(s_.args[1])
        if not (el.op == "agg" and el.a[0][0] == "tuple" and len(el.a[1]) == 2):
            continue
        k = B.peel(el.a[1][0])
        # (next(..) as Some).0 possibly through enumerate: .0.1.0 / .0.0
        path = []
        while k.op == "field":
            path.append(k.a[1])
            k = k.a[0]
        if k.op == "downcast" and k.a[1] == "Some" and B.peel(k.a[0]).op == "call" and B.cname(B.peel(k.a[0])) == "Iterator::next" and path and path[0] == "0":
            return True
    return False


def _pk_elem_ok(mc):
    # ("map", src, closure-message-class, pk_out): key component is the element's own key
    return mc[3] in ("P2.0", "*P2.0")


def check_core_table(ctx, P, traits=None, rule="E3.core", methods=None, siblings=True):
    """E3+E5: every scheme-trait method routes exactly the pinned (tag, message) to the core
    primitive, and signer/verifier of each scheme agree."""
    rows = core_call_table(ctx, P)
    seen = set()
    for r in rows:
        fn = r["fn"]
        tr = fn.trait_default_of
        if traits and tr not in traits:
            continue
        if methods and fn.name not in methods:
            continue
        key = (fn.name, r["sink"].split("::")[-1])
        exp = EXPECTED_CORE.get(tr, {}).get(key)
        seen.add((tr, key))
        if exp is None:
            ctx.ob(rule, "%s->%s" % (fn.key, key[1]), True, "additional core call (not in the pinned table) - checked by purpose rule only", where=where(fn, r["bb"]), weak=True)
            continue
        etag, emsg = exp
        mc = r["msg"]
        weak = mc[0] == "weak"
        if emsg == "basic-collected":
            ok_msg = check_basic_collected(ctx, P, fn, r)
        elif emsg == "aug-mapped":
            ok_msg = mc[0] == "map" and mc[1] == "param" and mc[2][0] == "aug-elem" and _same_elem(mc)
        else:
            ok_msg = (mc == emsg) or weak
        ok = r["tag"] == etag and ok_msg
        ctx.ob(
            rule,
            "%s->%s" % (fn.key, key[1]),
            ok,
            "expected tag=%s message=%s; found tag=%s message=%s (%s)" % (etag, emsg, r["tag"], mc, r["nf"]),
            where=where(fn, r["bb"]),
            sample={"fn": fn.key, "tag": r["tag"], "message": str(mc)},
            weak=weak,
        )
    for tr, table in EXPECTED_CORE.items():
        if traits and tr not in traits:
            continue
        for key in table:
            if methods and key[0] not in methods:
                continue
            if (tr, key) not in seen:
                ctx.ob(rule + ".anchor", "%s::%s->%s" % (tr, key[0], key[1]), False, "pinned core call `%s::%s -> %s` not found (missing anchor)" % (tr, key[0], key[1]))
    # sibling agreement per scheme: the set of (tag, normalised message) on the signing side equals the verifying side
    for tr in SCHEME_TRAITS:
        if not siblings:
            break
        if traits and tr not in traits:
            continue
        sign = {(r["tag"], _norm_side(r["msg"])) for r in rows if r["fn"].trait_default_of == tr and r["side"] == "sign"}
        ver = {(r["tag"], _norm_side(r["msg"])) for r in rows if r["fn"].trait_default_of == tr and r["side"] == "verify" and not r["sink"].endswith("aggregate_verify")}
        ctx.ob("E3.sibling", tr, sign == ver, "signing side %s ; verifying side %s" % (sorted(map(str, sign)), sorted(map(str, ver))))
    return rows


def _same_elem(mc):
    # ("map","param",("aug-elem", pk_elem, msg_elem), pk_out): the key that is prefixed is the key that is paired
    return mc[2][1] == mc[3]


def _norm_side(mc):
    if mc[0] == "aug":
        return ("aug", mc[2])
    if mc[0] == "pk":
        return ("pk",)
    return mc


def check_basic_collected(ctx, P, fn, r):
    """Basic aggregate_verify: messages are copied into `inputs` one per element and handed
    to core_aggregate_verify through a 1:1 map; uniqueness is decided by a set/map insert."""
    ev = evaluate(fn)
    site = ev.sites[r["bb"]]
    it = site.args[0]
    ok = it.op == "call" and B.cname(it) == "Iterator::map"
    return ok or _collected_image_of_pks(P, fn, ev, it)


def _collected_image_of_pks(P, fn, ev, it):
    """The list handed on is a 1:1 image of the caller's `pks` iterator: a vector filled with one push per entry (handed
    over by value, by iterator or through a per-element map)."""
    from . import flow as F

    src, steps = F.image_source(P, fn, ev, it)
    if src is None or not any(str(s_).startswith("push-loop") for s_ in steps):
        return False
    x = B.peel(src)
    k = 0
    while x.op == "call" and len(x.a[1]) >= 1 and B.cname(x) in ("Iterator::enumerate", "IntoIterator::into_iter", "Iterator::by_ref") and k < 4:
        x = B.peel(x.a[1][0])
        k += 1
    return x.op == "param" and x.a[1] == "pks"


# ---------------------------------------------------------------------------
# hash-to-curve routing, KeyGen


def check_hash_to_point_routing(ctx, P, rule="E1.h2c"):
    """Every HashToPoint impl forwards (message, tag) unmodified to the backend's
    random-oracle `hash` with expander ExpandMsgXmd over SHA-256."""
    impls = [f for f in P.fns.values() if f.impl_trait == "HashToPoint" and f.name == "hash_to_point"]
    ctx.floor(rule, "HashToPoint impls", len(impls), 4)
    for f in impls:
        ev = evaluate(f)
        ctx.saw(f)
        # private helpers / extension-trait impls between the impl and the backend call are looked through
        raw_ret = inline(P, ev.ret, 3, only=local_inliner(P))
        ret = strip_sites(raw_ret)
        ok_shape = ret.op == "call" and len(ret.a[1]) == 2
        name = B.cname(ret) if ok_shape else None
        gargs = ret.a[0][1] if ok_shape else ()
        site = [s for s in ev.sites.values() if s.callee[0] == name]
        if not site and ok_shape:
            # the backend call sits in an inlined helper: find its call site there
            wh = raw_ret.a[2] if len(raw_ret.a) > 2 and isinstance(raw_ret.a[2], tuple) else None
            g_ = P.fns.get(wh[0]) if wh else None
            if g_ is not None:
                site = [s for b_, s in evaluate(g_).sites.items() if b_ == wh[1] and s.callee[0] == name]
        path = site[0].raw["callee"]["path"] if site else ""
        # random-oracle map, not the non-uniform `encode`
        ctx.ob(rule + ".ro", f.key, ok_shape and name in ("G1Projective::hash", "G2Projective::hash") and path.endswith("::hash"), "hash_to_point must end in the backend's random-oracle `hash` (found `%s`)" % path, where=where(f))
        exp = gargs[0] if gargs else ""
        ok_exp = exp.startswith("ExpandMsgXmd<") and "Sha256VarCore" in exp and "OidSha256" in exp and "UInt<UInt<UInt<UInt<UInt<UInt<UTerm, B1>, B0>, B0>, B0>, B0>, B0>" in exp
        ctx.ob(rule + ".expander", f.key, ok_exp, "expander generic argument is `%s` (want ExpandMsgXmd<Sha256>, 32-byte output)" % exp[:120], where=where(f))
        # pass-through of message and tag
        if ok_shape:
            a0, a1 = [B.peel(x) for x in ret.a[1]]
            ctx.ob(rule + ".passthrough", f.key, a0.op == "param" and a0.a[0] == 1 and a1.op == "param" and a1.a[0] == 2, "message and tag are forwarded unmodified: hash(%s, %s)" % (show(a0, 4), show(a1, 4)), where=where(f))
        # output group: signature group for the Impl, public-key group for the Hasher
        out_ty = f.j.get("output")
        ctx.extra.setdefault("hash_to_point_outputs", {})[f.key] = out_ty


def check_keygen(ctx, P, rule="E5.keygen"):
    pinned = spec("pinned.json")
    f = ctx.need_fn(rule, "helpers::scalar_from_hkdf_bytes")
    if f is None:
        return
    ev = evaluate(f)
    fin = [s for s in ev.sites.values() if s.callee[0].endswith("::finalize") and "HkdfExtract" in s.callee[0]]
    exp = [s for s in ev.sites.values() if s.callee[0].endswith("::expand") and "Hkdf" in s.callee[0]]
    okm = [s for s in ev.sites.values() if s.callee[0].endswith("::from_okm")]
    if not (fin and exp and okm):
        ctx.ob(rule + ".anchor", "hkdf-chain", False, "HKDF extract/expand/from_okm chain not found in scalar_from_hkdf_bytes (missing anchor)", where=where(f))
        return
    # hash choice
    g = fin[0].callee[1]
    ctx.ob(rule + ".hash", "HkdfExtract<H>", bool(g) and "Sha256VarCore" in g[0] and "OidSha256" in g[0], "HKDF hash generic argument: %s" % (g[0][:80] if g else "?"), where=where(f, fin[0].bb))
    base, evs = B.events(fin[0].args[0])
    base = strip_sites(base)
    # new(salt = Param(salt))
    ok_new = base.op == "call" and B.cname(base).endswith("::new") and B.peel(base.a[1][0]).op == "param" and B.peel(base.a[1][0]).a[1] == "salt"
    ctx.ob(rule + ".salt", "extract(salt)", ok_new, "HkdfExtract::new(%s) - salt must be the caller's salt parameter" % (show(base.a[1][0], 4) if base.op == "call" and base.a[1] else show(base, 4)), where=where(f))
    ikm = []
    for name, others, _ in evs:
        if name.endswith("::input_ikm"):
            ikm += B.nf(ev, others[0])
        else:
            ikm.append(("?", T("opaque", name)))
    want_suffix = bytes.fromhex(pinned["hkdf"]["ikm_suffix_hex"])
    ok_ikm = len(ikm) == 2 and ikm[0][0] == "v" and ikm[0][1].op == "param" and ikm[0][1].a[1] == "ikm" and ikm[1] == ("b", want_suffix[0])
    ctx.ob(rule + ".ikm", "ikm‖0x00", ok_ikm, "IKM fed to HKDF-Extract is %s (want Pikm ‖ [0x00])" % B.show_nf(ikm), where=where(f), sample={"ikm": B.show_nf(ikm)})
    # expand(info, 48)
    e = exp[0]
    info = B.nf(ev, e.args[1])
    info_hex = None
    if len(info) == 1 and info[0][0] == "v" and info[0][1].op == "const":
        info_hex = info[0][1].a[1]
    elif all(s[0] == "b" for s in info):
        info_hex = "".join("%02x" % s[1] for s in info)
    ctx.ob(rule + ".info", "expand(info)", info_hex == pinned["hkdf"]["info_hex"], "HKDF-Expand info = %s (want %s = I2OSP(48,2))" % (info_hex, pinned["hkdf"]["info_hex"]), where=where(f, e.bb))
    out = B.peel(e.args[2])
    n = None
    for s in subterms(out):
        if s.op == "repeat":
            n = s.a[1]
    ctx.ob(rule + ".len", "expand(L)", n == pinned["hkdf"]["okm_len"], "HKDF-Expand output length = %s (want %d)" % (n, pinned["hkdf"]["okm_len"]), where=where(f, e.bb))
    # prk flows from finalize into expand
    prk = B.peel(e.args[0])
    ctx.ob(rule + ".prk", "expand(prk)", any(s.op == "call" and B.cname(s).endswith("::finalize") for s in subterms(prk)), "expand is keyed by the extractor's output", where=where(f, e.bb))
    # from_okm(output) is the returned scalar
    o = okm[0]
    oa = B.peel(o.args[0])
    ctx.ob(rule + ".okm", "from_okm(expand output)", any(s.op == "mutcall" and B.cname(s).endswith("::expand") for s in subterms(oa)), "from_okm consumes the expanded bytes: %s" % show(strip_sites(oa), 4), where=where(f, o.bb))
    retdeps = [s for s in subterms(ev.ret) if s.op == "loop"]
    step_ok = any(v is not None and any(x.op == "call" and B.cname(x).endswith("from_okm") for x in subterms(v)) for (h, l), v in ev.loop_step.items())
    ctx.ob(rule + ".ret", "returned scalar", step_ok and bool(retdeps), "returned scalar is the from_okm result (retry-on-zero loop)", where=where(f))
    # HashToScalar impls route (m, dst) -> scalar_from_hkdf_bytes(Some(dst), m)
    impls = [g for g in P.fns.values() if g.impl_trait == "HashToScalar" and g.name == "hash_to_scalar"]
    ctx.floor(rule, "HashToScalar impls", len(impls), 2)
    for g in impls:
        gev = evaluate(g)
        ctx.saw(g)
        r = strip_sites(gev.ret)
        ok = r.op == "call" and B.cname(r) == "helpers::scalar_from_hkdf_bytes" and len(r.a[1]) == 2
        if ok:
            salt, ikm_t = r.a[1]
            sp = B.peel(salt)
            ok = sp.op == "agg" and sp.a[0][1:3] == ("Option", "Some") and B.peel(sp.a[1][0]).op == "param" and B.peel(sp.a[1][0]).a[1] == "dst" and B.peel(ikm_t).op == "param" and B.peel(ikm_t).a[1] == "m"
        ctx.ob(rule + ".route", g.key, ok, "hash_to_scalar(m, dst) = scalar_from_hkdf_bytes(Some(dst), m): %s" % show(r, 6), where=where(g))
    # key derivation entry points put KEYGEN_SALT in the salt position (looking through delegation between them)
    n = 0
    for fk in ("SecretKey<C>::from_hash", "SecretKey<C>::random", "BlsSignature<T>::secret_key_from_hash", "BlsSignature<T>::random_secret_key"):
        fn = ctx.need_fn(rule + ".keysalt", fk, P)
        if fn is None:
            continue
        ev2 = evaluate(fn)
        ret = strip_sites(inline(P, ev2.ret, 3, only=lambda g: not g.key.endswith("::hash_to_scalar")))
        hs = [t for t in subterms(ret) if t.op == "call" and B.cname(t) == "HashToScalar::hash_to_scalar" and len(t.a[1]) == 2]
        got = None
        ok = len(hs) == 1
        if ok:
            tg = B.peel(hs[0].a[1][1])
            val = tg.a[2] if tg.op == "named" else None
            got = bytes.fromhex(val.a[1]).decode("latin-1") if val is not None and val.op == "const" and val.a[0] == "bytes" else None
            ok = tg.op == "named" and got == pinned["salts"]["keygen"]
            n += 1
        ctx.ob(rule + ".keysalt", fk, ok, "key derivation = one hash_to_scalar(.., salt) with salt = %r (want %r)" % (got, pinned["salts"]["keygen"]), where=where(fn))
    ctx.floor(rule + ".keysalt", "key-derivation entry points", n, 4)


def check_seeded_derivation(ctx, P, rule="E5.seeded"):
    """Key / challenge derivation from a caller-supplied RNG is hash_to_scalar(rng.gen::<[u8;32]>(), KEYGEN_SALT) -
    backend-independent - and the duplicated entry points agree; the backend's own Field::random is confined
    to ephemeral values."""
    fns = ["SecretKey<C>::random", "BlsSignature<T>::random_secret_key", "ProofCommitmentChallenge<C>::random"]
    shapes = {}
    for fk in fns:
        f = ctx.need_fn(rule, fk, P)
        if f is None:
            continue
        ev = evaluate(f)
        ret = strip_sites(inline(P, ev.ret, 3, only=lambda g: not g.key.endswith("::hash_to_scalar")))
        hs = [t for t in subterms(ret) if t.op == "call" and B.cname(t) == "HashToScalar::hash_to_scalar"]
        ok = len(hs) == 1
        detail = show(ret, 5)
        if ok:
            m, salt = hs[0].a[1]
            mm = B.peel(m)
            gen = mm.op == "call" and B.cname(mm) == "Rng::gen" and mm.a[0][1][1:2] == ("[u8; 32]",) and B.peel(mm.a[1][0]).op == "param" and B.peel(mm.a[1][0]).a[1] == "rng"
            st = B.peel(salt)
            sv = bytes.fromhex(st.a[2].a[1]).decode("latin-1") if st.op == "named" and st.a[2].op == "const" else None
            ok = gen and sv == spec("pinned.json")["salts"]["keygen"]
            shapes[fk] = (gen, sv)
        ctx.ob(rule, fk, ok, "%s = hash_to_scalar(rng.gen::<[u8;32]>(), KEYGEN_SALT): %s" % (fk, detail), where=where(f))
    if len(shapes) >= 2:
        ctx.ob(rule, "siblings", len(set(shapes.values())) == 1, "seeded derivations agree: %s" % shapes)
    # Field::random (the backend's own sampler): never on a path that derives a value from a caller's seed.
    # Decided as reachability: nothing reachable from the seed-deterministic derivations calls it; the ephemeral
    # samplers (commitment secrets, ElGamal blinders and their helpers) are free to.
    from .common import reachable_fns

    import re as _re

    det_rx = _re.compile(r"::(from_hash|secret_key_from_hash|proof_challenge_from_hash|hash_to_scalar|hash_to_point|core_sign|core_partial_sign|pop_prove|public_key|compute_y|message_generator)$")
    det_roots = [P.fns.get(k) for k in fns] + [g for k, g in sorted(P.fns.items()) if det_rx.search(k)]
    det = reachable_fns(P, [r for r in det_roots if r is not None])
    n = 0
    bad = []
    for f in P.fns.values():
        for bb, t in f.calls():
            c = t.get("callee") or {}
            if c.get("trait") == "Field" and c.get("name") == "random":
                n += 1
                if f.key in det:
                    bad.append((f, bb))
    for f, bb in bad:
        ctx.ob(rule + ".field-random", f.key, False, "backend-specific sampling Field::random is reachable from a seed-deterministic derivation (%s): the two backends would derive different values from the same seed" % ", ".join(k for k in fns if P.fns.get(k) is not None and f.key in reachable_fns(P, [P.fns[k]])), where=where(f, bb))
    ctx.ob(rule + ".field-random", "deterministic-closure", not bad, "no Field::random call among the %d functions reachable from the seed-deterministic derivations (%d Field::random call sites elsewhere: ephemeral values)" % (len(det), n))
    ctx.floor(rule + ".field-random", "Field::random call sites seen by the rule (detector is live)", n, 1)


def hash_to_scalar_calls(P, fn, depth=2):
    """hash_to_scalar call terms of fn, including those in the crate helpers its values pass through (looked through
    with local_inliner): [(message term, salt term)] without duplicates."""
    from . import guardrules as R

    ev = evaluate(fn)
    roots = [ev.ret] + [fl for _, _, fl in R.ctoption_sites(P, fn)] + [a for x in ev.sites.values() for a in x.args]
    seen = set()
    out = []
    for rt in roots:
        for c in subterms(inline(P, rt, depth, only=local_inliner(P))):
            if c.op != "call" or B.cname(c) != "HashToScalar::hash_to_scalar" or len(c.a[1]) != 2:
                continue
            key = strip_sites(c)
            if key in seen:
                continue
            seen.add(key)
            out.append((c.a[1][0], c.a[1][1]))
    return out


def check_pop_chain(ctx, P, rule="E5.chain"):
    """The high-level proof-of-possession entry points compute the draft's PopProve / PopVerify: looking through every
    crate function on the way, exactly one core_sign (core_verify) is reached, under the POP tag, with the key's own
    compressed bytes as the message and the key's own scalar (resp. the caller's key and the proof) as operands -
    whatever route (pop_prove, a helper, the generic sign wrapper) the call takes."""
    from . import flow as F
    from .spec import built_variants

    only = lambda g: g.key not in PRODUCERS and g.key not in CONSUMERS and not g.key.endswith("::hash_to_point") and not g.key.endswith("::hash_to_scalar") and g.key != "BlsSignatureCore::public_key"
    for fk, sink, kind in (("SecretKey<C>::proof_of_possession", "BlsSignatureCore::core_sign", "prove"), ("ProofOfPossession<C>::verify", "BlsSignatureCore::core_verify", "verify")):
        f = ctx.need_fn(rule, fk)
        if f is None:
            continue
        ev = evaluate(f)
        R = inline(P, ev.ret, 5, only=only)
        calls = []
        seen = set()
        for c_ in subterms(R):
            if c_.op == "call" and B.cname(c_) == sink and strip_sites(c_) not in seen:
                seen.add(strip_sites(c_))
                calls.append(c_)
        ok = len(calls) == 1
        detail = "%d call(s) to %s reached" % (len(calls), sink.split("::")[-1])
        if ok:
            a = calls[0].a[1]
            tag = tag_of(a[-1])
            msg = B.nf(ev, a[-2])
            cls = classify_segs(msg)
            if kind == "prove":
                r0 = F.projection_root(strip_sites(a[0]))
                opnd = r0 is not None and r0[0].a[1] == "self"
                ok = tag == "BlsSignaturePop::POP_DST" and cls == ("pk", "own") and opnd
            else:
                roots = [F.projection_root(strip_sites(x)) for x in a[:2]]
                opnd = all(roots) and [x[0].a[1] for x in roots] == ["pk", "self"]
                ok = tag == "BlsSignaturePop::POP_DST" and cls == ("pk", "param") and opnd
            detail = "tag=%s message=%s operands-from-the-caller=%s" % (tag, cls, opnd)
        ctx.ob(rule, fk, ok, "%s = %s under POP_DST over the key's own compressed bytes: %s" % (fk, "PopProve(self)" if kind == "prove" else "PopVerify(pk, self)", detail), where=where(f))
        if kind == "prove":
            ctx.ob(rule, fk + "/result", bool(built_variants(inline(P, ev.ret, 2, only=only), "ProofOfPossession")), "result wraps the proof", where=where(f))


def check_hash_derivations(ctx, P, rule="E5.from-hash", fns=("ProofCommitmentChallenge<C>::from_hash", "SecretKey<C>::from_hash")):
    """`from_hash(data)` derives its scalar from the WHOLE input: hash_to_scalar(data, KEYGEN_SALT) with the message
    argument being exactly the caller's bytes (no prefix, no fixed-size seed the input is zipped / truncated into)."""
    for fk in fns:
        f = ctx.need_fn(rule, fk, P)
        if f is None:
            continue
        ev = evaluate(f)
        ret = strip_sites(inline(P, ev.ret, 3, only=lambda g: not g.key.endswith("::hash_to_scalar") and not g.key.endswith("scalar_from_hkdf_bytes")))
        hs = [t for t in subterms(ret) if t.op == "call" and B.cname(t) in ("HashToScalar::hash_to_scalar", "helpers::scalar_from_hkdf_bytes")]
        ok = len(hs) == 1
        shown = show(ret, 5)
        if ok:
            args = hs[0].a[1]
            m = args[-1] if B.cname(hs[0]).endswith("scalar_from_hkdf_bytes") else args[0]
            segs = B.nf(ev, m)
            shown = B.show_nf(segs)
            ok = len(segs) == 1 and segs[0][0] == "v" and B.peel(segs[0][1]).op == "param" and B.peel(segs[0][1]).a[1] == "data"
        ctx.ob(rule, fk, ok, "%s hashes the caller's bytes whole: message = %s" % (fk, shown), where=where(f))
