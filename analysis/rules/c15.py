"""C15 - every value survives every encoding unchanged."""
from ..core.sym import evaluate, strip_sites
from ..core.terms import show, subterms
from ..core import bytesnf as B
from .common import where
from . import flow as _F15
from . import codecs as C

EXPLANATION = (
    "Decides writer/reader agreement by shape for every public data type: each From<&T> for Vec<u8> / TryFrom<&[u8]> pair is "
    "classified into a codec kind (serde_bare of a type, tagged tuple, compressed point, 32-byte big-endian scalar, raw array, "
    "curve-tagged key) and the kinds and type arguments must be equal (26 pairs; an unclassified codec fails closed); the 100+ "
    "macro-derived container conversions delegate with the bytes unmodified; for every wire-tag enum the writer tables - including "
    "every `E as u8` cast, which writes the declared discriminant - composed with the reader table are the identity on variants, "
    "for the numeric and the string form; per type the serialize_with codec modules equal the deserialize_with modules in field "
    "order and each BlsSerde serialize_X / deserialize_X pair uses the same associated type; hand-written Serialize/Deserialize "
    "pairs branch on is_human_readable on both sides with matching forms; big-endian helpers reverse the field repr on both sides and "
    "little-endian ones on neither. Not decided: value equality after a round trip for all values (needs the dependency codecs to be "
    "injective)."
)
RULE = "E9 codec-kind classification and sibling agreement; wire-tag table composition; serde helper pairing read from derive-generated MIR; endianness shape"


def run(ctx):
    P = ctx.P
    C.check_byte_codecs(ctx, P)
    C.check_delegations(ctx, P)
    C.check_tag_tables(ctx, P)
    C.check_serde_with_pairs(ctx, P)
    C.check_endianness(ctx, P)
    C.check_endian_delegation(ctx, P)
    C.check_reader_totality(ctx, P)
    C.check_serialize_total(ctx, P)
    C.check_reader_rejections(ctx, P)
    # "every value ... encodes": the writers are total - no abort-capable site (an assertion on the value being written,
    # an index, an unwrap) is reachable from the encoders that is not discharged.  The identity point and the zero scalar
    # are values of these types (Default returns them, an aggregate can cancel to them).
    import re as _re
    from . import aborts as A_

    wr = sorted(k for k, f in P.fns.items() if not f.from_expansion and (_re.match(r"^(scalar|signature|public_key|public_key_share|secret_key_share)::serialize$", k) or _re.match(r"^<Vec<u8> as From<&", k) or (f.impl_trait == "Serialize" and f.name == "serialize") or (f.impl_trait == "BlsSerde" and f.name.startswith("serialize_")) or (f.impl_trait == "Display" and f.name == "fmt") or _re.search(r"::to_(be|le)_bytes$", k)))
    ctx.floor("E8", "encoder entry points", len(wr), 50)
    A_.check_aborts(ctx, "E8", P, wr, scope="C15")
    from . import guardrules as R_

    R_.check_scalar_importer_rejects(ctx, "E4.import-total", P)
    # ... and the zero test every scalar importer starts with returns (no arithmetic abort for any byte pattern):
    # an abort in the decoder is a value that does not survive the round trip
    from . import flow as F_

    F_.check_iszero(ctx, P, "E8.iszero", check_asserts=True, need=())
    check_handwritten_serde(ctx, P)
    check_enum_key_wrapper(ctx, P)
    check_enum_key_wrapper_elements(ctx, P)
    ctx.assume("serde_bare, hex and the backend's point/scalar codecs are injective and mutually inverse (dependency contract)")


def _hr_branches(P, f):
    """(human-readable arm call names, binary arm call names) of a hand-written serde fn."""
    ev = evaluate(f)
    hr, binr = [], []
    sw = None
    for b, d in ev.switch.items():
        if any(s.op == "call" and B.cname(s) in ("Serializer::is_human_readable", "Deserializer::is_human_readable") for s in subterms(d)):
            sw = b
    if sw is None:
        return None
    t = f.blocks[sw]["term"]
    false_t = [tg for v, tg in t["arms"] if v == 0]
    true_t = t["otherwise"]
    cfg = f.cfg
    rt = cfg.reach_from(true_t)
    rf = cfg.reach_from(false_t[0]) if false_t else set()
    for b, s in ev.sites.items():
        if b in rt and b not in rf:
            hr.append(s.callee[0])
        elif b in rf and b not in rt:
            binr.append(s.callee[0])
    return hr, binr


def _arm_value_kinds(P, f):
    """({kinds written/read in the human-readable arm}, {.. in the binary arm}) with kinds in {"str", "u8", "other"}."""
    ev = evaluate(f)
    sw = None
    for b, d in ev.switch.items():
        if any(s.op == "call" and B.cname(s) in ("Serializer::is_human_readable", "Deserializer::is_human_readable") for s in subterms(d)):
            sw = b
    if sw is None:
        return None
    t = f.blocks[sw]["term"]
    false_t = [tg for v, tg in t["arms"] if v == 0]
    true_t = t["otherwise"]
    rt = f.cfg.reach_from(true_t)
    rf = f.cfg.reach_from(false_t[0]) if false_t else set()
    out = (set(), set())
    for bb, tt in f.calls():
        if bb in rt and bb not in rf:
            side = 0
        elif bb in rf and bb not in rt:
            side = 1
        else:
            continue
        c = tt.get("callee") or {}
        nm, tr = c.get("name"), c.get("trait")
        sty = str(c.get("self_ty") or "").replace("&", "").replace("'de ", "").strip()
        kind = None
        if nm in ("serialize_str", "collect_str", "deserialize_str", "deserialize_string"):
            kind = "str"
        elif nm in ("serialize_u8", "deserialize_u8"):
            kind = "u8"
        elif (tr == "Serialize" and nm == "serialize") or (tr == "Deserialize" and nm == "deserialize"):
            kind = "str" if sty in ("String", "str", "Cow<str>", "std::string::String") or sty.startswith("Cow<") else ("u8" if sty == "u8" else "other")
        elif nm and (nm.startswith("serialize_") or nm.startswith("deserialize_")) and tr in ("Serializer", "Deserializer"):
            kind = "other"
        if kind:
            out[side].add(kind)
    return out


def check_handwritten_serde(ctx, P, rule="E9.handserde"):
    pairs = [
        ("<Bls12381 as Serialize>::serialize", "<Bls12381 as Deserialize<'de>>::deserialize", ("Serializer::serialize_str", "Deserialize::deserialize"), ("Serializer::serialize_u8", "Deserialize::deserialize")),
        ("<SignatureSchemes as Serialize>::serialize", "<SignatureSchemes as Deserialize<'de>>::deserialize", ("Serialize::serialize", "Deserialize::deserialize"), ("Serialize::serialize", "Deserialize::deserialize")),
        ("<[u8; N] as BigArray<'de>>::serialize", "<[u8; N] as BigArray<'de>>::deserialize", ("hex::encode", "hex::decode_to_slice"), ("Serializer::serialize_tuple", "Deserializer::deserialize_tuple")),
    ]
    for sk, dk, hr_want, bin_want in pairs:
        sf = ctx.need_fn(rule, sk, P)
        df = ctx.need_fn(rule, dk, P)
        if sf is None or df is None:
            continue
        sb, db = _hr_branches(P, sf), _hr_branches(P, df)
        if sb is None or db is None:
            ctx.ob(rule, sk, False, "serializer/deserializer pair does not branch on is_human_readable on both sides", where=where(sf))
            continue
        fam = lambda want, got: want in got or (want.startswith("hex::") and any(x.startswith("hex::") for x in got))
        ok_hr = fam(hr_want[0], sb[0]) and fam(hr_want[1], db[0])
        ok_bin = bin_want[0] in sb[1] and bin_want[1] in db[1]
        if not (ok_hr and ok_bin) and "BigArray" not in sk:
            # the tag enums: what matters is WHAT is written and read in each form - a string in the text form, a u8 in the
            # binary form, on both sides (however it is spelled: serialize_str, String::serialize, parse(), map(..))
            sk_, dk_ = _arm_value_kinds(P, sf), _arm_value_kinds(P, df)
            if sk_ is not None and dk_ is not None:
                ok_hr = sk_[0] == {"str"} and dk_[0] == {"str"}
                ok_bin = sk_[1] == {"u8"} and dk_[1] == {"u8"}
        ctx.ob(rule, sk.split(" as ")[0].lstrip("<"), ok_hr and ok_bin, "human-readable: %s <-> %s ; binary: %s <-> %s" % ([x for x in sb[0] if "is_human" not in x][:3], [x for x in db[0] if "is_human" not in x][:3], sb[1][:3], db[1][:3]), where=where(sf))
        # the scalar types used in the binary branch agree (u8 <-> u8, String <-> str)
    # deserialize types: the type argument of Deserialize::deserialize in each arm
    for dk, hr_ty, bin_ty in (("<Bls12381 as Deserialize<'de>>::deserialize", "String", "u8"), ("<SignatureSchemes as Deserialize<'de>>::deserialize", "String", "u8")):
        df = P.fns.get(dk)
        if df is None:
            continue
        tys = sorted({t["callee"].get("self_ty") for bb, t in df.calls() if t.get("callee") and t["callee"].get("trait") == "Deserialize"})
        ctx.ob(rule, dk + "/types", tys == sorted([hr_ty, bin_ty]), "deserializes %s (want %s for text, %s for binary)" % (tys, hr_ty, bin_ty), where=where(df))
    sf = P.fns.get("<SignatureSchemes as Serialize>::serialize")
    if sf is not None:
        ev = evaluate(sf)
        casts = [s for s in subterms(ev.ret) if s.op == "cast" and str(s.a[2]) == "u8"]
        # ... or the crate's own `u8::from(scheme)` (its table is compared with the reader's by the tag-table rule)
        casts += [s for s in subterms(ev.ret) if s.op == "call" and B.cname(s) in ("From::from", "Into::into") and tuple(s.a[0][1][:2]) in (("u8", "SignatureSchemes"), ("SignatureSchemes", "u8")) and "<u8 as From<SignatureSchemes>>::from" in P.fns]
        tos = [s for s in ev.sites.values() if s.callee[0] == "ToString::to_string"]
        # `format!("{}", self)` / `write!(.., "{}", self)`: the text is produced by the value's own Display as well
        tos += [s for s in ev.sites.values() if s.callee[0].endswith("::new_display") and s.args and _F15.projection_root(strip_sites(s.args[0])) is not None and _F15.projection_root(strip_sites(s.args[0]))[0].a[1] == "self"]
        sem = _forms_concrete(P, sf)
        if sem is not None:
            ctx.ob(rule, "SignatureSchemes/forms", sem[0], "text form = the Display string of the variant, binary form = the byte the u8 reader maps back to it (%s)" % sem[1], where=where(sf))
        else:
            ctx.ob(rule, "SignatureSchemes/forms", bool(casts) and bool(tos), "text form = to_string() (Display table), binary form = `as u8` (declared discriminants) - both covered by the tag-table rule", where=where(sf))


def _forms_concrete(P, sf, adt="SignatureSchemes"):
    """Walk the hand-written serializer for every variant in both forms (core/cinterp.py): (ok, detail) or None when the
    function uses something the interpreter does not know."""
    from ..core import cinterp as CI
    from ..core import ceval as CE
    from . import codecs as C_

    disp = P.fns.get("<%s as Display>::fmt" % adt)
    rd = P.fns.get("<%s as From<u8>>::from" % adt) or P.fns.get("<%s as TryFrom<u8>>::try_from" % adt)
    if disp is None or rd is None:
        return None
    bad = []
    try:
        for v in P.adts[adt]["variants"]:
            val = ("adt", adt, v["name"], ())
            want = CI.run_fn(P, disp, [val, ("adt", "Formatter", "Formatter", ())])[1]
            for hr in (True, False):
                r = CI.Run(P)
                r.human_readable = hr
                r.run(sf, [val, ("adt", "Serializer", "Serializer", ())])
                if len(r.out) != 1:
                    return None
                if hr:
                    if [r.out[0]] != want:
                        bad.append("%s text %r vs Display %r" % (v["name"], r.out[0], want))
                else:
                    back = CE.result_variant(CI.run_fn(P, rd, [r.out[0]])[0])
                    if not isinstance(r.out[0], int) or back != v["name"]:
                        bad.append("%s binary %r reads back as %r" % (v["name"], r.out[0], back))
    except Exception:
        return None
    return (not bad, "; ".join(bad) if bad else "all %d variants" % len(P.adts[adt]["variants"]))


def check_enum_key_wrapper(ctx, P, rule="E9.keywrapper"):
    """SecretKeyEnum: each variant is written with its own curve tag and read back into the same variant.
    Decided on the variant-specialised evaluation (the shape of the match / helper / combinator does not matter)."""
    from . import spec as SP

    for fk in ("<Vec<u8> as From<&SecretKeyEnum>>::from", "SecretKeyEnum::to_be_bytes", "SecretKeyEnum::to_le_bytes", "<SecretKeyEnum as Serialize>::serialize"):
        f = ctx.need_fn(rule, fk, P)
        if f is None:
            continue
        n = 0
        for assume in SP.assumptions(P, f, ["SecretKeyEnum"]):
            V = SP.variant_of(assume)
            if not assume or V is None:
                continue
            ev = evaluate(f, assume)
            terms = [ev.ret] + [a for _, s_ in sorted(ev.sites.items()) for a in s_.args]
            tags = set()
            for t in terms:
                t = SP.spec_inline(P, ev, t, 2)
                tags |= set(SP.built_variants(t, "Bls12381"))
                # or: the whole value handed to a sibling writer that is itself checked
                for x in subterms(t):
                    if x.op == "call" and B.cname(x) in ("SecretKeyEnum::to_be_bytes", "SecretKeyEnum::to_le_bytes", "<Vec<u8> as From<&SecretKeyEnum>>::from") and B.cname(x) != fk:
                        tags.add(V)
            n += 1
            ctx.ob(rule, "%s/%s" % (fk, V), sorted(tags) == [V], "variant %s is written with curve tag Bls12381::%s" % (V, "/".join(sorted(tags)) or "<none>"), where=where(f))
        if n == 0:
            # no dispatch of its own: the whole value is handed to a sibling writer (which is checked above / below)
            r = strip_sites(evaluate(f).ret)
            sib = [x for x in subterms(r) if x.op == "call" and B.cname(x) in ("SecretKeyEnum::to_be_bytes", "SecretKeyEnum::to_le_bytes", "<Vec<u8> as From<&SecretKeyEnum>>::from") and B.cname(x) != fk]
            whole = [x for x in sib if x.a[1] and B.peel(x.a[1][0]).op == "param"]
            if whole:
                ctx.ob(rule, "%s/delegates" % fk, True, "%s hands the whole value to %s" % (fk, B.cname(whole[0])), where=where(f))
                n = 2
        ctx.ob(rule + ".anchor", fk, n == 2, "%d variants of SecretKeyEnum written by %s" % (n, fk), where=where(f))
    for fk in ("<SecretKeyEnum as TryFrom<&[u8]>>::try_from", "SecretKeyEnum::from_be_bytes", "SecretKeyEnum::from_le_bytes", "<<SecretKeyEnum as Deserialize<'de>>::deserialize::SecretKeyEnumVisitor as Visitor<'de>>::visit_seq"):
        f = ctx.need_fn(rule, fk, P)
        if f is None:
            continue
        n = SP.check_reader_totality(ctx, rule, P, f, "SecretKeyEnum", ["Bls12381"], allow_default=True)
        ctx.ob(rule + ".anchor", fk, n >= 2, "%d curve tags read by %s" % (n, fk), where=where(f))


def _tuple_components(ty):
    """Component types of a tuple type string `(A, &B<C, D>, ..)` (references dropped), else None."""
    ty = ty.strip()
    if not (ty.startswith("(") and ty.endswith(")")):
        return None
    out, depth, cur = [], 0, ""
    for ch in ty[1:-1]:
        if ch in "<([":
            depth += 1
        elif ch in ">)]":
            depth -= 1
        if ch == "," and depth == 0:
            out.append(cur)
            cur = ""
        else:
            cur += ch
    if cur.strip():
        out.append(cur)
    norm = lambda t: t.strip().replace("&'_ ", "").replace("&mut ", "").lstrip("&").strip()
    return [norm(t) for t in out]


def check_enum_key_wrapper_elements(ctx, P, rule="E9.keywrapper"):
    """The hand-written serde pair of SecretKeyEnum agrees on what the two elements ARE, not only on their bytes in one
    format: under each variant the writer serialises a tuple whose component types are the types the visitor asks the
    sequence for under that curve tag (a `[u8; 32]` and a `SecretKey` have the same compact form and different
    human-readable forms)."""
    from . import spec as SP

    w = ctx.need_fn(rule, "<SecretKeyEnum as Serialize>::serialize", P)
    r = ctx.need_fn(rule, "<<SecretKeyEnum as Deserialize<'de>>::deserialize::SecretKeyEnumVisitor as Visitor<'de>>::visit_seq", P)
    if w is None or r is None:
        return
    written = {}
    for assume in SP.assumptions(P, w, ["SecretKeyEnum"]):
        V = SP.variant_of(assume)
        if not assume or V is None:
            continue
        ev = evaluate(w, assume)
        tys = []
        for _, s_ in sorted(ev.sites.items()):
            if s_.callee[0].endswith("Serialize::serialize") and s_.callee[1]:
                comps = _tuple_components(str(s_.callee[1][0]))
                if comps is not None:
                    tys.append(comps)
            if s_.callee[0] in ("SerializeTuple::serialize_element", "SerializeSeq::serialize_element") and len(s_.callee[1]) >= 2:
                tys.append(["#elem", str(s_.callee[1][1]).lstrip("&").strip()])
        if tys and all(t[0] == "#elem" for t in tys):
            tys = [[t[1] for t in tys]]
        written[V] = tys
    read = {}
    for root, adt in SP.switch_roots(P, r, ["Bls12381"], computed=True):
        for V in [v["name"] for v in P.adts["Bls12381"]["variants"]]:
            ev = evaluate(r, {root: V})
            read[V] = [str(s_.callee[1][-1]).strip() for _, s_ in sorted(ev.sites.items()) if s_.callee[0] == "SeqAccess::next_element" and s_.callee[1]]
    n = 0
    for V in sorted(set(written) | set(read)):
        wv, rv = written.get(V), read.get(V)
        ok = wv is not None and rv is not None and len(wv) == 1 and wv[0] == rv
        n += 1
        ctx.ob(rule, "elements/%s" % V, ok, "variant %s: the writer serialises %s, the visitor reads %s" % (V, wv, rv), where=where(w))
    ctx.floor(rule, "SecretKeyEnum variants whose serde element types are compared", n, 2)


def check_fixed_hex_reader(ctx, P, rule="E9.fixed-hex"):
    """The human-readable reader of the fixed-size byte containers accepts exactly N bytes: the hex text is decoded
    straight into the whole N-byte array (`hex::decode_to_slice`, which refuses any other length), or the decoded
    length is compared for equality with N before a value is produced."""
    from ..core import guards as G
    from . import guardrules as R

    fk = "<[u8; N] as BigArray<'de>>::deserialize"
    f = ctx.need_fn(rule, fk, P)
    if f is None:
        return
    ev = evaluate(f)
    d2s = [s_ for s_ in ev.sites.values() if s_.callee[0] == "hex::decode_to_slice"]
    dec = [s_ for s_ in ev.sites.values() if s_.callee[0] in ("hex::decode", "FromHex::from_hex")]
    if d2s:
        dst = B.peel(d2s[0].args[1])
        whole = not (dst.op == "call" and B.cname(dst) in ("IndexMut::index_mut", "Index::index"))
        ctx.ob(rule, fk, whole, "hex text is decoded into %s (decode_to_slice refuses any length but the destination's)" % ("the whole N-byte array" if whole else "a sub-slice of the array: " + show(strip_sites(dst), 3)), where=where(f, d2s[0].bb))
        return
    if dec:
        ok = False
        seen = []
        for b, lits in R.ok_exits(P, f, ev):
            hrlits = [(a, p) for a, p in lits if a[1] == "cmp"]
            for a, p in hrlits:
                op = a[2] if p else R._NEG[a[2]]
                seen.append("%s %s %s" % (show(a[3], 3), op, show(a[4], 3)))
                if op == "Eq" and any(x.op == "call" and B.cname(x) in ("hex::decode", "FromHex::from_hex") for x in subterms(a[3]) | subterms(a[4])):
                    ok = True
        conv = any(s_.callee[0] == "TryFrom::try_from" and s_.callee[1] and s_.callee[1][0].startswith("[u8;") for s_ in ev.sites.values())
        ctx.ob(rule, fk, ok or conv, "decoded hex length is forced to equal N before a value is produced (conditions seen: %s)" % (seen[:4] or "none"), where=where(f, dec[0].bb))
        return
    ctx.ob(rule + ".anchor", fk, False, "no hex decoding found in the human-readable branch", where=where(f))
