"""Shared rule engines (E1 constants, E2 scheme arms, E7 who-may-call, helpers)."""
import json
import os
from collections import defaultdict

from ..core.program import callee_is, callee_name
from ..core.sym import evaluate, strip_sites, inline, calls_in, params_of
from ..core.terms import T, show, subterms
from ..core import guards as G

SPEC_DIR = os.path.join(os.path.dirname(os.path.dirname(os.path.abspath(__file__))), "spec")


def spec(name):
    with open(os.path.join(SPEC_DIR, name)) as fh:
        return json.load(fh)


SCHEME_VARIANTS = ("Basic", "MessageAugmentation", "ProofOfPossession")
SCHEME_TRAITS = {
    "BlsSignatureBasic": "Basic",
    "BlsSignatureMessageAugmentation": "MessageAugmentation",
    "BlsSignaturePop": "ProofOfPossession",
}
# associated tag constants -> (scheme, purpose)
TAG_CONSTS = {
    "BlsSignatureBasic::DST": ("Basic", "sig"),
    "BlsSignatureMessageAugmentation::DST": ("MessageAugmentation", "sig"),
    "BlsSignaturePop::SIG_DST": ("ProofOfPossession", "sig"),
    "BlsSignaturePop::POP_DST": ("ProofOfPossession", "pop"),
}


def where(fn, bb=None, sp=None):
    if sp:
        return "%s (%s)" % (sp, fn.key)
    if bb is not None:
        t = fn.blocks[bb]["term"]
        return "%s (%s bb%d)" % (t.get("sp", fn.span), fn.key, bb)
    return "%s (%s)" % (fn.span, fn.key)


# ---------------------------------------------------------------------------
# E1: constants


def collect_constants(P):
    """All byte-string constants of the crate: impl-associated and module-level."""
    out = []
    for self_ty, trait, name, val in P.impl_assoc_consts():
        if val and "bytes_hex" in val:
            out.append({"id": "%s/%s::%s" % (self_ty, trait, name), "impl": self_ty, "trait": trait, "name": name, "hex": val["bytes_hex"], "str": val.get("bytes_str")})
    for c in P.consts:
        v = c.get("value") or {}
        if "bytes_hex" in v and not c.get("from_expansion"):
            out.append({"id": c["key"], "impl": None, "trait": None, "name": c["name"], "hex": v["bytes_hex"], "str": v.get("bytes_str"), "ty": v.get("ty")})
    return out


# ---------------------------------------------------------------------------
# E2: scheme arms


def scheme_items_in_block(P, fn, bb):
    """Scheme-specific items mentioned in a block: [(kind, scheme, description, span)]."""
    out = []
    blk = fn.blocks[bb]

    def scan_operand(op, sp):
        c = op.get("const") if isinstance(op, dict) else None
        if not c:
            return
        if c.get("uneval") in TAG_CONSTS:
            sch, purpose = TAG_CONSTS[c["uneval"]]
            out.append(("tag", sch, c["uneval"], sp, purpose))
        # unit variant of a scheme-tagged C-like enum appears as a scalar constant
        if c.get("ty") in P.scheme_adts() and "int" in c:
            a = P.adts.get(c["ty"])
            for v in a["variants"]:
                if v.get("discr", v["index"]) == c["int"]:
                    out.append(("variant", v["name"], "%s::%s" % (c["ty"], v["name"]), sp, None))

    def scan_rv(rv, sp):
        for k in ("use", "a", "b", "repeat"):
            if k in rv and isinstance(rv[k], dict):
                scan_operand(rv[k], sp)
        for o in rv.get("ops", []):
            scan_operand(o, sp)
        agg = rv.get("agg")
        if agg and agg.get("adt") in P.scheme_adts() and agg.get("variant") in SCHEME_VARIANTS:
            out.append(("variant", agg["variant"], "%s::%s" % (agg["adt"], agg["variant"]), sp, None))

    for s in blk["stmts"]:
        if s["k"] == "assign":
            scan_rv(s["rv"], s.get("sp"))
    t = blk["term"]
    if t["k"] in ("call", "tailcall"):
        c = t.get("callee")
        if c:
            tr = c.get("trait")
            if tr in SCHEME_TRAITS and c.get("trait_crate", "blsful") == "blsful" or (tr in SCHEME_TRAITS and c.get("local")):
                purpose = "pop" if c["name"].startswith("pop_") else "sig"
                out.append(("call", SCHEME_TRAITS[tr], "%s::%s" % (tr, c["name"]), t.get("sp"), purpose))
        for a in t.get("args", []):
            scan_operand(a, t.get("sp"))
    return out


def scheme_context(P, fn, bb):
    """Scheme variants selected by the scheme-ADT switch edges dominating bb:
    list of (adt, variant-or-tuple, src_bb)."""
    ev = evaluate(fn)
    out = []
    for src, val, d, tj in G.edge_conditions(ev, bb):
        v = G.variant_of_switch(P, fn, src, val)
        if v and v[0] in P.scheme_adts():
            out.append((v[0], v[1], src, show(strip_sites(d), 4) if d is not None else "?"))
    return out


def dispatch_sites(P, fn):
    """Blocks that switch on the discriminant of a scheme-tagged ADT."""
    out = []
    for i in sorted(fn.cfg.reachable):
        t = fn.blocks[i]["term"]
        if t["k"] != "switch":
            continue
        v = G.variant_of_switch(P, fn, i, t["arms"][0][0] if t["arms"] else "otherwise")
        if v and v[0] in P.scheme_adts():
            out.append(i)
    return out


def check_arm_purity(ctx, rule, P, fns=None, require_floor=None):
    """E2-A: inside the arm for variant V only items of scheme V; under two different
    variants (diagonal rule) no scheme item at all."""
    n_sites = 0
    n_arms = 0
    fns = fns if fns is not None else [f for f in P.fns.values()]
    for fn in fns:
        sites = dispatch_sites(P, fn)
        if not sites:
            continue
        ctx.saw(fn)
        n_sites += len(sites)
        for bb in sorted(fn.cfg.reachable):
            sc = scheme_context(P, fn, bb)
            if not sc:
                continue
            items = scheme_items_in_block(P, fn, bb)
            if not items:
                continue
            # two tests of the SAME value that select disjoint variant sets (`if matches!(x, V1) { return } ... match x { V1 => ..`)
            # make the block unreachable: nothing it mentions is ever used
            per_scrutinee = {}
            for adt, v, src, dsc in sc:
                vs_ = {v} if isinstance(v, str) else set(v)
                per_scrutinee[dsc] = vs_ if dsc not in per_scrutinee else (per_scrutinee[dsc] & vs_)
            if any(not vs_ for dsc, vs_ in per_scrutinee.items() if dsc != "?"):
                continue
            # the set of schemes this block may run under
            allowed = None
            for adt, v, src, _ in sc:
                vs = {v} if isinstance(v, str) else set(v)
                allowed = vs if allowed is None else (allowed & vs)
            n_arms += 1
            for kind, sch, desc, sp, purpose in items:
                ok = sch in allowed and (len(allowed) == 1 or kind == "variant" and False or sch in allowed)
                if allowed is not None and len(allowed) == 0:
                    ok = False
                # an item is pure only if the context pins the scheme to exactly that one
                if len(allowed) != 1:
                    ok = False if kind in ("tag", "call") else (sch in allowed)
                ctx.ob(
                    rule,
                    "%s/%s in arm{%s}" % (fn.key, desc, ",".join(sorted(allowed))),
                    ok,
                    "%s `%s` (scheme %s) used where the dispatch context is {%s}"
                    % (kind, desc, sch, ", ".join("%s::%s" % (a, v) for a, v, _, _ in sc)),
                    where=where(fn, bb, sp),
                    sample={"fn": fn.key, "item": desc, "context": [list(map(str, x[:2])) for x in sc]},
                )
    return n_sites, n_arms


def check_tag_control_dependence(ctx, rule, P, allow_pop=("SecretKey<C>::proof_of_possession", "ProofOfPossession<C>::verify"), only=None):
    """E2-B: outside the scheme traits' own default methods, every scheme tag constant and
    every scheme-trait call must sit under a scheme arm.  `only`: restrict to these functions (and their closures)."""
    n = 0
    for fn in P.fns.values():
        if owner_trait(P, fn) in SCHEME_TRAITS:
            continue
        if only is not None:
            base = fn
            k = 0
            while base is not None and base.kind == "Closure" and k < 8:
                base = P.fns.get(base.j.get("parent_key"))
                k += 1
            if base is None or base.key not in only:
                continue
        for bb in sorted(fn.cfg.reachable):
            items = [it for it in scheme_items_in_block(P, fn, bb) if it[0] in ("tag", "call")]
            if not items:
                continue
            ctx.saw(fn)
            sc = scheme_context(P, fn, bb)
            for kind, sch, desc, sp, purpose in items:
                n += 1
                if purpose == "pop" and fn.key in allow_pop:
                    ctx.ob(rule, "%s/%s" % (fn.key, desc), True, "proof-of-possession purpose call in its dedicated wrapper", where=where(fn, bb, sp))
                    continue
                ok = len(sc) > 0
                if purpose == "pop":
                    ctx.ob(rule + ".pop", "%s/%s" % (fn.key, desc), False, "proof-of-possession purpose item `%s` used outside the proof-of-possession prove/verify pair" % desc, where=where(fn, bb, sp))
                    continue
                ctx.ob(
                    rule,
                    "%s/%s" % (fn.key, desc),
                    ok,
                    "scheme item `%s` is %s" % (desc, "selected under " + "; ".join("%s::%s" % (a, v) for a, v, _, _ in sc) if ok else "used unconditionally: it is not control-dependent on any scheme variant"),
                    where=where(fn, bb, sp),
                    sample={"fn": fn.key, "item": desc},
                )
    return n


def owner_trait(P, fn):
    """Trait whose default method this function (or the function enclosing this closure) is."""
    seen = 0
    while fn is not None and fn.kind == "Closure" and seen < 8:
        fn = P.fns.get(fn.j.get("parent_key"))
        seen += 1
    return fn.trait_default_of if fn is not None else None


def check_inside_scheme_traits(ctx, rule, P):
    """E2-C: a scheme trait's default methods only use that trait's own tags/methods."""
    n = 0
    for fn in P.fns.values():
        owner = owner_trait(P, fn)
        if owner not in SCHEME_TRAITS:
            continue
        ctx.saw(fn)
        mine = SCHEME_TRAITS[owner]
        for bb in sorted(fn.cfg.reachable):
            for kind, sch, desc, sp, purpose in scheme_items_in_block(P, fn, bb):
                if kind == "variant":
                    continue
                n += 1
                ctx.ob(rule, "%s/%s" % (fn.key, desc), sch == mine, "`%s` (scheme %s) used inside %s" % (desc, sch, owner), where=where(fn, bb, sp))
    return n


# ---------------------------------------------------------------------------
# E7: who-may-call


def call_sites(P, pred, fns=None):
    """[(fn, bb, term)] for calls whose callee JSON satisfies pred."""
    out = []
    for fn in fns if fns is not None else P.fns.values():
        for bb, t in fn.calls():
            c = t.get("callee")
            if c and pred(c, t):
                out.append((fn, bb, t))
    return out


import re as _re


def _generics_of(P, f):
    seen = 0
    out = list(f.j.get("generics") or [])
    while f is not None and f.kind == "Closure" and seen < 8:
        f = P.fns.get(f.j.get("parent_key"))
        seen += 1
        if f is not None:
            out += list(f.j.get("generics") or [])
    return out


def _same_head(impl_self, call_self):
    """Same outer type constructor (generic arguments ignored)."""
    h = lambda x: x.lstrip("&").replace("mut ", "").split("<")[0].strip()
    a, b = h(impl_self), h(call_self)
    if a == b:
        return True
    # arrays / slices: `[u8; N]` impls apply to `[u8; 32]`
    if a.startswith("[") and b.startswith("["):
        return a.split(";")[0] == b.split(";")[0]
    return False


def reachable_fns(P, roots, stop=()):
    """Crate-local call graph closure (trait-default methods + impl overrides by name)."""
    by_name = defaultdict(list)
    for f in P.fns.values():
        by_name[f.key].append(f)
    # trait method name -> impl fns
    impls_of = defaultdict(list)
    for f in P.fns.values():
        if f.impl_trait and f.kind == "AssocFn":
            impls_of["%s::%s" % (f.impl_trait, f.name)].append(f)
    seen = {}
    st = [r for r in roots if r is not None]
    while st:
        f = st.pop()
        if f.key in seen or f.key in stop:
            continue
        seen[f.key] = f
        # closures defined in f
        for g in P.fns.values():
            if g.kind == "Closure" and g.j.get("parent_key") == f.key and g.key not in seen:
                st.append(g)
        for bb, t in f.calls():
            c = t.get("callee")
            if not c:
                continue
            k = c.get("key")
            if k and k in P.fns:
                st.append(P.fns[k])
            r = c.get("resolved")
            if r and r.get("key") in P.fns:
                st.append(P.fns[r["key"]])
            if c.get("trait") and c.get("local") is not None:
                sty = c.get("self_ty") or ""
                gens = set(_generics_of(P, f)) | {"Self"}
                toks = set(_re.findall(r"[A-Za-z_][A-Za-z0-9_]*", sty))
                abstract = bool(toks & gens) or not sty
                for g in impls_of.get("%s::%s" % (c["trait"], c["name"]), []):
                    if abstract or _same_head(g.impl_self or "", sty):
                        st.append(g)
    return seen


def positive_control(ctx, rule, what, found):
    """Zero-count rules must fire on the fixture crate, otherwise the check is broken."""
    return ctx.ob(rule + ".posctl", what, found > 0, "positive control: the rule matched %d site(s) in fixtures/posctl (must be > 0)" % found)


def check_tag_table(ctx, P, rule="E1"):
    """Exhaustive: all tag/salt constants pairwise distinct; the 8 ciphersuite tags equal the IETF strings."""
    from itertools import combinations

    pinned = spec("pinned.json")
    consts = collect_constants(P)
    tags = [c for c in consts if c["name"] in ("DST", "SIG_DST", "POP_DST", "ENC_DST") or c["name"].endswith("SALT")]
    ctx.floor(rule, "tag/salt constants", len(tags), 15)
    for a, b in combinations(tags, 2):
        ctx.ob(rule + ".distinct", "%s<>%s" % (a["id"], b["id"]), a["hex"] != b["hex"], "constants `%s` and `%s` are %s" % (a["id"], b["id"], "distinct" if a["hex"] != b["hex"] else "EQUAL (%r)" % a["str"]))
    ctx.extra["exhaustive"] = True
    ctx.extra["tags_enumerated"] = {c["id"]: c["str"] for c in tags}
    for key, want in pinned["ietf_tags"].items():
        impl, item = key.split("/")
        tr, name = item.split("::")
        got = [c for c in tags if c["impl"] == impl and c["trait"] == tr and c["name"] == name]
        if not got:
            ctx.ob(rule + ".ietf", key, False, "ciphersuite tag `%s` not found (missing anchor)" % key)
            continue
        ctx.ob(rule + ".ietf", key, got[0]["str"] == want, "`%s` = %r, IETF draft says %r" % (key, got[0]["str"], want), sample={"tag": key, "value": got[0]["str"]})
    return tags


def with_mappers(P, fns):
    """fns plus the crate-local helper functions they call that themselves dispatch on a scheme-tagged enum
    (e.g. a private `dst_for(scheme)`), so that arm purity is checked where the dispatch actually happens."""
    out = list(fns)
    seen = {f.key for f in fns}
    for f in fns:
        for bb, t in f.calls():
            c = t.get("callee") or {}
            g = P.fns.get(c.get("key"))
            if g is not None and g.key not in seen and g.trait_default_of not in SCHEME_TRAITS and dispatch_sites(P, g):
                seen.add(g.key)
                out.append(g)
    return out


def check_dispatching(ctx, rule, P, fns):
    """Each entry point selects by scheme: it switches on a scheme-tagged enum itself or through a local mapper."""
    for f in fns:
        own = bool(dispatch_sites(P, f))
        via = [g.key for g in with_mappers(P, [f]) if g is not f]
        ctx.ob(rule + ".dispatch", f.key, own or bool(via), "scheme dispatch %s" % ("in the function itself" if own else ("through local mapper %s" % via if via else "NOT FOUND: the function no longer selects by scheme")), where=where(f))


def scheme_roots(P, f, adt="SignatureSchemes"):
    """Where does the scheme that selects the tag come from?  Roots (as `param.path` strings) of every switch on
    `adt` in f, and - for dispatch through a local mapper - of the argument handed to the mapper."""
    from .flow import projection_root

    ev = evaluate(f)
    out = []
    for b, d in sorted(ev.switch.items()):
        v = G.variant_of_switch(P, f, b, 0)
        if v and v[0] == adt and d is not None and d.op == "discr":
            r = projection_root(strip_sites(d).a[0])
            out.append((r[0].a[1] + r[1]) if r else None)
    for g in with_mappers(P, [f]):
        if g is f:
            continue
        gev = evaluate(g)
        proots = []
        for b, d in sorted(gev.switch.items()):
            v = G.variant_of_switch(P, g, b, 0)
            if v and v[0] == adt and d is not None and d.op == "discr":
                r = projection_root(strip_sites(d).a[0])
                if r and r[1] == "":
                    proots.append(r[0].a[0])
        for bb, s in sorted(ev.sites.items()):
            if s.callee[0] == g.key:
                for pi in proots:
                    if pi - 1 < len(s.args):
                        r = projection_root(strip_sites(s.args[pi - 1]))
                        out.append((r[0].a[1] + r[1]) if r else None)
    return out
