"""C09 - a proof of possession verifies only for the key that made it."""
from ..core.sym import evaluate, strip_sites
from ..core.terms import show, subterms
from ..core import bytesnf as B
from .common import where, check_tag_table
from . import constructions as K
from . import guardrules as R
from . import flow as F
from .c02 import check_pipeline

EXPLANATION = (
    "Decides the prove/verify glue: pop_prove hashes to_bytes(public_key(sk)) and pop_verify hashes to_bytes(pk) under the same "
    "POP tag (sibling agreement on construction terms, own-key unified with the verifier's key); the POP tag is used nowhere else "
    "and differs from every other tag (exhaustive); the wrappers forward the secret scalar / (key, proof) as pure projections; the "
    "verifier's decision goes through core_verify (identity guards, pairing test) and depends on both the key and the proof; no RNG "
    "or clock is reachable (determinism); the pairing helpers pass every pair to the Miller loop. Not decided: rejection for every "
    "other key (discrete-log hardness)."
)
RULE = "E3 sibling agreement; E5 construction terms; E1 constants; E7 effect reachability; E6 dependence; pipeline shape"


def run(ctx):
    P = ctx.P
    rows = K.check_core_siblings(ctx, P, traits=("BlsSignaturePop",), methods_sign=("pop_prove",), methods_verify=("pop_verify",))
    pop = [r for r in rows if r["fn"].name in ("pop_prove", "pop_verify")]
    ctx.floor("E3.pop", "proof-of-possession core calls", len(pop), 2)
    # the proof is bound to the key: both sides hash (a function of) the key itself
    for r in pop:
        ctx.ob("E5.pop-binds-key", r["fn"].key, r["msg"][0] in ("pk", "aug") or "PKBYTES" in K._canon_nf(r), "%s hashes %s - the message must contain the key's own bytes" % (r["fn"].key, r["nf"]), where=where(r["fn"], r["bb"]))
    K.check_pop_chain(ctx, P)
    # pop_verify passes pk and sig to core_verify unmodified
    f = ctx.need_fn("E6.uses-all", "BlsSignaturePop::pop_verify")
    if f is not None:
        ev = evaluate(f)
        r = strip_sites(ev.ret)
        ok = r.op == "call" and B.cname(r) in ("BlsSignatureCore::core_verify", "BlsSignaturePop::verify") and [B.peel(a).a[1] if B.peel(a).op == "param" else None for a in r.a[1][:2]] == ["pk", "sig"]
        ctx.ob("E6.uses-all", "BlsSignaturePop::pop_verify", ok, "pop_verify returns the verification of (pk, sig, f(pk)) directly: decision depends on the key and on the proof: %s" % show(r, 3), where=where(f))
    for fk, kind, subj in (("BlsSignatureCore::core_verify", "is_identity", ("param", "sig")), ("BlsSignatureCore::core_verify", "is_identity", ("param", "pk")), ("BlsSignatureCore::core_sign", "is_zero", ("param", "sk"))):
        R.check_result_guard(ctx, "E4.result", P, fk, kind, subj)
    F.check_no_effects(ctx, "E7.deterministic", P, ["SecretKey<C>::proof_of_possession", "ProofOfPossession<C>::verify", "SecretKey<C>::public_key"])
    for fk in ("<Bls12381G1Impl as Pairing>::pairing", "<Bls12381G2Impl as Pairing>::pairing"):
        check_pipeline(ctx, P, fk)
    # "for every non-zero secret key": proving and verifying return for every key (no abort-capable site on the way
    # that is not discharged) - with and without debug assertions
    from . import aborts as A

    roots = ["SecretKey<C>::proof_of_possession", "ProofOfPossession<C>::verify", "BlsSignaturePop::pop_prove", "BlsSignaturePop::pop_verify"]
    A.check_aborts(ctx, "E8", P, roots, scope="C09")
    A.check_aborts(ctx, "E8", ctx.prog("blst", "nodebug"), roots, scope="C09", profile="nodebug")
    # a proof selected in constant time is the proof that was asked for
    F.check_conditional_select(ctx, "E6.select", P, only=("ProofOfPossession",))
    # "any change to the proof makes it fail": a proof (and the key it is checked against) enters only through the
    # subgroup-checking point decoders - an unchecked decoder would let a proof shifted by a small-order point parse
    from . import posctl as PC

    bad = [(f, bb, p) for f, bb, p in PC.unchecked_calls(P) if _concerns(P, f, ("ProofOfPossession", "deserialize_signature", "serialize_signature"))]
    ctx.ob("E7.unchecked", "proof-of-possession decoders", not bad, "unchecked point decoders on the way of a proof of possession: %s" % [(f.key, p) for f, bb, p in bad][:4], where=where(bad[0][0], bad[0][1]) if bad else None)
    PC.run_posctl(ctx, "E7.unchecked", "unchecked")
    # ... and a proof with bytes appended is a changed proof: the byte reader takes exactly one representation
    _exact_len(ctx, P)


def _exact_len(ctx, P):
    from . import codecs as C
    from .c16 import check_point_reader_exact_len

    ws, rs = C.byte_codec_fns(P)
    check_point_reader_exact_len(ctx, P, rs, ("ProofOfPossession",))


def _concerns(P, f, words):
    base = f
    k = 0
    while base is not None and base.kind == "Closure" and k < 4:
        base = P.fns.get(base.j.get("parent_key"))
        k += 1
    key = (base or f).key
    return any(w in key for w in words)
