"""Run the fact extractor on /repo's current working tree (content-addressed cache).

Every check calls facts(config) -> dict.  A configuration is (backend, profile):
backend in {blst, rust}; profile in {dev, nodebug}.  The cache key is the SHA-256
of every file under /repo that the build reads (src/**, Cargo.toml, Cargo.lock,
build.rs) + the driver binary + the flags, so any edit under /repo re-extracts.
"""
import fcntl
import hashlib
import json
import os
import shutil
import subprocess
import sys
import time

VERIF = os.path.dirname(os.path.dirname(os.path.abspath(__file__)))
REPO = os.environ.get("VERIF_REPO", "/repo")
CACHE = os.path.join(VERIF, ".cache")
DRIVER = os.path.join(VERIF, "driver", "target", "release", "blsful-facts")

BACKENDS = {
    "blst": [],
    "rust": ["--no-default-features", "--features", "rust"],
}
PROFILES = {
    "dev": "",
    "nodebug": " -C debug-assertions=off -C overflow-checks=off",
}
BASE_RUSTFLAGS = "-Zmir-opt-level=0 -Zalways-encode-mir -Awarnings"


def _sysroot():
    return subprocess.check_output(["rustc", "+nightly", "--print", "sysroot"], text=True).strip()


def repo_files(repo=None):
    repo = repo or REPO
    out = []
    for base in ("Cargo.toml", "Cargo.lock", "build.rs"):
        p = os.path.join(repo, base)
        if os.path.exists(p):
            out.append(p)
    for root, dirs, files in os.walk(os.path.join(repo, "src")):
        dirs.sort()
        for f in sorted(files):
            out.append(os.path.join(root, f))
    return out


def tree_hash(repo=None, extra=""):
    repo = repo or REPO
    h = hashlib.sha256()
    for p in repo_files(repo):
        h.update(os.path.relpath(p, repo).encode())
        h.update(b"\0")
        with open(p, "rb") as fh:
            h.update(fh.read())
        h.update(b"\0")
    if os.path.exists(DRIVER):
        with open(DRIVER, "rb") as fh:
            h.update(hashlib.sha256(fh.read()).digest())
    h.update(extra.encode())
    return h.hexdigest()


def ensure_driver():
    if os.path.exists(DRIVER):
        return
    subprocess.check_call(
        ["cargo", "+nightly", "build", "--release", "--offline"],
        cwd=os.path.join(VERIF, "driver"),
        env=dict(os.environ, CARGO_NET_OFFLINE="true"),
    )


class ExtractError(Exception):
    pass


def facts_path(backend="blst", profile="dev", repo=None, crate="blsful", lib_only=True):
    """Return the path of the fact file for this configuration, extracting if needed."""
    repo = repo or REPO
    ensure_driver()
    if os.environ.get("VERIF_NO_CACHE") == "1":
        shutil.rmtree(os.path.join(CACHE, "facts"), ignore_errors=True)
    flags = BASE_RUSTFLAGS + PROFILES[profile]
    key = tree_hash(repo, extra=backend + "|" + flags + "|" + crate)
    fdir = os.path.join(CACHE, "facts")
    os.makedirs(fdir, exist_ok=True)
    out = os.path.join(fdir, "%s-%s-%s-%s.json.gz" % (crate, backend, profile, key[:24]))
    lockp = os.path.join(CACHE, "lock-%s-%s-%s" % (crate, backend, profile))
    with open(lockp, "w") as lk:
        fcntl.flock(lk, fcntl.LOCK_EX)
        if os.path.exists(out) and os.path.getsize(out) > 0:
            return out
        tgt = os.path.join(CACHE, "tgt-%s-%s-%s" % (crate, backend, profile))
        os.makedirs(tgt, exist_ok=True)
        # cargo's freshness cache would skip the wrapper: drop the member's fingerprints
        fp = os.path.join(tgt, "debug", ".fingerprint")
        if os.path.isdir(fp):
            for d in os.listdir(fp):
                if d.startswith(crate + "-"):
                    shutil.rmtree(os.path.join(fp, d), ignore_errors=True)
        tmp = out[:-3] + ".tmp"
        if os.path.exists(tmp):
            os.remove(tmp)
        env = dict(os.environ)
        env.update(
            LD_LIBRARY_PATH=_sysroot() + "/lib",
            RUSTFLAGS=flags,
            RUSTC_WORKSPACE_WRAPPER=DRIVER,
            VERIF_FACTS_OUT=tmp,
            VERIF_CRATE=crate,
            CARGO_TARGET_DIR=tgt,
            CARGO_NET_OFFLINE="true",
        )
        env.pop("RUSTC_WRAPPER", None)
        cmd = ["cargo", "+nightly", "check", "--offline", "--lib"] + BACKENDS[backend]
        t0 = time.time()
        p = subprocess.run(cmd, cwd=repo, env=env, stdout=subprocess.PIPE, stderr=subprocess.STDOUT, text=True)
        if p.returncode != 0:
            raise ExtractError(
                "cargo check failed for backend=%s profile=%s:\n%s" % (backend, profile, p.stdout[-6000:])
            )
        if not os.path.exists(tmp):
            raise ExtractError("driver produced no fact file (backend=%s profile=%s)\n%s" % (backend, profile, p.stdout[-3000:]))
        import gzip

        with open(tmp, "rb") as fi, gzip.open(out + ".part", "wb", compresslevel=3) as fo:
            shutil.copyfileobj(fi, fo)
        os.remove(tmp)
        os.replace(out + ".part", out)
        # keep the facts directory small: drop stale files of this configuration
        pref = "%s-%s-%s-" % (crate, backend, profile)
        olds = sorted(
            (f for f in os.listdir(fdir) if f.startswith(pref) and (f.endswith(".json.gz") or f.endswith(".json"))),
            key=lambda f: os.path.getmtime(os.path.join(fdir, f)),
        )
        for f in olds[:-400]:
            os.remove(os.path.join(fdir, f))
        sys.stderr.write("[extract] %s/%s in %.1fs -> %s\n" % (backend, profile, time.time() - t0, os.path.basename(out)))
    return out


_mem = {}


def facts(backend="blst", profile="dev", repo=None):
    p = facts_path(backend, profile, repo)
    if p not in _mem:
        import gzip

        with (gzip.open(p, "rt") if p.endswith(".gz") else open(p)) as fh:
            _mem[p] = json.load(fh)
    return _mem[p]


if __name__ == "__main__":
    b = sys.argv[1] if len(sys.argv) > 1 else "blst"
    pr = sys.argv[2] if len(sys.argv) > 2 else "dev"
    print(facts_path(b, pr))
