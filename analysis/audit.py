"""Thorough tier: mutation audit of the checker itself.

Every seeded change that belongs to the property (meta.json: property / also) is applied to a scratch
copy of /repo's *current* sources outside /repo and /verif, the quick check is run on the copy
(VERIF_REPO=<copy>) and must report a violation; every behaviour-preserving variant under
seeded/benign must leave the check silent.  Results go into the evidence (they describe the
checker, not the tree: they never turn into a VIOLATION line)."""
import json
import os
import shutil
import subprocess
import sys
import tempfile

VERIF = os.path.dirname(os.path.dirname(os.path.abspath(__file__)))


def _copy_repo(dst):
    repo = os.environ.get("VERIF_REPO", "/repo")
    for name in ("src", "Cargo.toml", "Cargo.lock", "build.rs"):
        p = os.path.join(repo, name)
        if os.path.isdir(p):
            shutil.copytree(p, os.path.join(dst, name))
        elif os.path.exists(p):
            shutil.copy(p, os.path.join(dst, name))


def _run_on(patch, prop):
    d = tempfile.mkdtemp(prefix="verif-audit-")
    try:
        _copy_repo(d)
        r = subprocess.run(["patch", "-p1", "-s", "-f", "-i", patch], cwd=d, capture_output=True, text=True)
        if r.returncode != 0:
            return "skipped (patch does not apply to the current tree)"
        env = dict(os.environ, VERIF_REPO=d, VERIF_NO_AUDIT="1", VERIF_EVIDENCE_DIR=os.path.join(d, "evidence"))
        q = subprocess.run([os.path.join(VERIF, "check"), prop, "--tier", "quick"], cwd=VERIF, env=env, capture_output=True, text=True)
        if q.returncode == 1 and "VIOLATION property=" in q.stdout:
            first = [l for l in q.stdout.splitlines() if l.startswith("  violation")]
            return "caught: " + (first[0].strip()[:160] if first else "")
        if q.returncode == 0:
            return "silent"
        return "error rc=%d" % q.returncode
    finally:
        shutil.rmtree(d, ignore_errors=True)


def mutation_audit(ctx, prop):
    from concurrent.futures import ThreadPoolExecutor

    sd = os.path.join(VERIF, "seeded")
    killed, total, det = 0, 0, []
    todo = []
    for name in sorted(os.listdir(sd)):
        mp = os.path.join(sd, name, "meta.json")
        if not os.path.exists(mp):
            continue
        meta = json.load(open(mp))
        if prop != meta.get("property") and prop not in meta.get("also", []):
            continue
        todo.append(("seed", name, os.path.join(sd, name, "patch.diff")))
    bd = os.path.join(sd, "benign")
    if os.path.isdir(bd):
        for name in sorted(os.listdir(bd)):
            pp = os.path.join(bd, name, "patch.diff")
            if os.path.exists(pp):
                todo.append(("benign", name, pp))
    with ThreadPoolExecutor(max_workers=int(os.environ.get("VERIF_AUDIT_JOBS", "12"))) as ex:
        results = dict(zip([(k, n) for k, n, _ in todo], ex.map(lambda t: _run_on(t[2], prop), todo)))
    for name in sorted(os.listdir(sd)):
        if ("seed", name) not in results:
            continue
        res = results[("seed", name)]
        if res.startswith("skipped"):
            det.append({"seed": name, "result": res})
            continue
        total += 1
        if res.startswith("caught"):
            killed += 1
        det.append({"seed": name, "result": res})
    bd = os.path.join(sd, "benign")
    silent, btotal, bdet = 0, 0, []
    if os.path.isdir(bd):
        for name in sorted(os.listdir(bd)):
            pp = os.path.join(bd, name, "patch.diff")
            if not os.path.exists(pp):
                continue
            res = results.get(("benign", name)) or "skipped"
            if res.startswith("skipped"):
                continue
            btotal += 1
            if res == "silent":
                silent += 1
            else:
                bdet.append({"variant": name, "result": res})
    ctx.extra["mutation_audit"] = {"seeded_caught": killed, "seeded_total": total, "benign_silent": silent, "benign_total": btotal, "seeded": det, "benign_alarms": bdet}
    print("AUDIT %s: %d/%d seeded changes caught, %d/%d behaviour-preserving variants silent" % (prop, killed, total, silent, btotal))
